"""Per-property configuration and evidence assembly."""
import os
import oap

KERNEL = ("Coq 8.16.1 kernel (Debian build, OCaml 4.13.1) incl. its vm_compute machine; no native_compute; "
          "full .vo build (no -vos/-vok)")
EXTRACTION = ("Coq extraction with ExtrOcamlBasic only (Extract Inductive bool/option/unit/list/prod/sumbool/sumor; "
              "no Extract Constant of ours), ocamlopt 4.13.1, ocaml/vmodel.ml (I/O only); cross-checked each run by "
              "vm_compute evaluation of a case sample inside Coq")
TRANSLATOR = "harness/cmd/vextract (Go): prints constants evaluated by the Go compiler into coq/Gen/Consts.v on every run"
HARNESS = ("harness/cmd/vharness (Go, built against /repo's working tree with -tags verif): generators, canonical "
           "printers, error-identity mapping, direct oracles")

NOT_APPLICABLE = {}

PROPS = {
    "C20": {
        "design_ref": "DESIGN.md section 6 (C20)",
        "projection": "packets surfaced to the client core per transport; application-level traces",
        "mismatch_is_input": True,
        "level_text": "Coq theorems on the two adapters (Model/WsBridge.v): for every script over {response, push, heartbeat from the peer, pong to the client's heartbeat, close with code/reason}, the packets handed to the client core over TCP and over WebSocket agree in type, command, status, body and request id (except the id a surfaced WebSocket ping draws from the connection's generator), and are routed identically; WebSocket ping/pong/close are surfaced as heartbeat request / heartbeat response carrying the heartbeat id as request id / close packet; heartbeat and close packets the client writes travel as ping/close control frames carrying the body. gorilla/websocket is a parameter (handler contract). Tie: one script run over both transports; surfaced packets compared with the model per transport, application traces diffed. Partial: abrupt-drop recovery and ordering around close are compared by scenario only; undecodable data frames (ignored on WebSocket, fatal on TCP) are outside the common scripts. Plus transport-diffed scripts for opaque pongs, small gzip threshold keepalive, quiet period after a pong, largest body, and a heartbeat queued when the peer goes away.",
        "level_note": "Trusted: kernel, extraction, harness, gorilla/websocket per its documented handler contract (control handlers run inside the read; WriteControl concurrent with WriteMessage).",
        "assumptions": ["gorilla/websocket handler contract", "proto.Marshal of control.Close is deterministic", "the peer's pong carries the client's heartbeat body (C15)"],
        "modelled": "wsConn.onPing/onPong/onClose/readPacket/Write routing, tcpConn path by identity",
    },
    "C06": {
        "crash_is_violation": True,
        "design_ref": "DESIGN.md section 6 (C06)",
        "projection": "completion (result class, wall-clock bound, panic) of every request call; final lifecycle observables",
        "mismatch_is_input": True,
        "timeout": {"quick": 1500, "thorough": 6000},
        "level_text": "Coq theorems on three mechanism models. Waiters.v: a call that has written its request always has its deadline step enabled and that step finishes it, whatever the peer did; a call waiting while the connection is recycled (waiter sweep) returns 'lost', never panics or hangs. Life.v (lifecycle of the repaired client: Close with its once, losses, the recovery loop's head / dial / auth steps, writes, goroutine exits): no interleaving of any length reaches a panic state (nil connection, double close of a channel) and a write on a closed or replaced connection is an immediate error. Recovery.v (C08): every attempt ends. PARTIAL: the numeric bound request+dial+auth timeouts is measured, not proved - the models have no clock; of the lock interactions only the one place where a lock holder waits for something other than a timer (Close vs another closer of the connection, Model/CloseLock.v, theorems in Properties/C14.v) is modelled; the rest (the repaired self-deadlock of closeByServer) is covered by scenario. Tie: peer scripts silence / drop after every byte k of the response / server close packet / garbage / refused dials / rejected RECONNECT / silent AUTH / concurrent Close, calls issued before, during and after the fault, TCP and WebSocket; every call under a watchdog and recover(); histories replayed by the Waiters and Life models. Also scripted: a caller deadline later than the request timeout, and a host that leaves connection attempts unanswered during the recovery (backlog-0 listener). Translator tie: Gen/Chans.v (every channel send/receive of the client package with its syntactic form, regenerated from the source on every run by vaccess): C06_call_wait_watches_its_context_in_source.",
        "level_note": "Trusted: kernel, extraction, harness (scripted peers, watchdog). Partial: wall-clock bound measured with 1.2 s scheduling slack; lock discipline not modelled.",
        "assumptions": ["Go select with a ready timer case eventually runs", "context deadlines fire"],
        "modelled": "client.Do/recv/deadline, waiter sweep on reconnectDial, Close/closeOnce, reconnecting loop phases, conn slot never nil after Dial",
    },
    "C14": {
        "crash_is_violation": True,
        "design_ref": "DESIGN.md section 6 (C14)",
        "projection": "close callbacks, reconnect callbacks, connections and open sockets at the peer, connection goroutines",
        "mismatch_is_input": True,
        "timeout": {"quick": 1500, "thorough": 6000},
        "level_text": "Coq theorems on the lifecycle model (Model/Life.v) for every interleaving, of any length, of user Close, connection losses, the recovery loop's steps (loop head with its closed / give-up checks, dial done ok or failed, auth done ok or failed), request writes and goroutine exits, for every MaxReconnect: no panic state is reachable (second close of closeCh by a later give-up, send on a closed queue - the queues are never closed, nil connection); the close callback count is 1 iff closed else 0; no dial is begun, no frame written and no after-reconnect callback run after Close (counters of late events stay 0) and every connection, including one whose dial was in flight at Close, ends closed; Close itself is a single step without waits. Lock model (Model/CloseLock.v: client.Close holding the client's read lock while conn.Close may wait for the connection's once, whose body - run by another closer - ends in the callback that takes the write lock unless the client is closed; any number of other read-lock holders; writer-preferring RWMutex): in every reachable state some thread can move until all are done, every step decreases a measure, the cycle user-waits-for-once / reader-waits-for-write-lock is unreachable; without the closed test in the callback the same schedule deadlocks (witness). Tie: Close injected at idle / k calls in flight / dispatcher busy in a handler / reader holding a frame (tcp.before-add gate) / caller about to enqueue (conn.write.before-enqueue gate) / recovery backing off / authenticating / give-up fired or about to fire, TCP and WebSocket; oracles Close < 1 s, one callback, nothing at the peer afterwards, no panic; final observables compared with the model run.",
        "level_note": "Trusted: kernel, extraction, harness, hook points. 'Promptly' is measured (1 s), not proved. The real interleaving is forced only at the listed points; the theorems cover all interleavings of the model's atomic steps, whose atomicity (one lock-protected region or one channel operation each) is argued in DESIGN.md.",
        "assumptions": ["sync.Once runs its body once", "closing a closed channel panics (Go semantics)"],
        "modelled": "client.Close/closeOnce, onConnClose, reconnecting loop, reconnectDial, tcpConn/wsConn Close and goroutine exits",
    },
    "C16": {
        "design_ref": "DESIGN.md section 6 (C16)",
        "projection": "connection goroutines alive and sockets open at the peer after quiescence",
        "mismatch_is_input": True,
        "timeout": {"quick": 1500, "thorough": 6000},
        "level_text": "Coq theorems on the lifecycle model (Model/Life.v) for every history of any length: at most one connection is open at any time (recovery closes the old one before it dials, Close closes them all); every goroutine of a closed connection has an exit step (reader, writer and dispatcher all watch closeCh); at quiescence the goroutines serving connections number exactly 3 x open connections, hence at most 3 whatever the number of cycles and 0 after Close. Tie: N = 5 (thorough: 20) cycles of dial+close, peer drop+recover, server close packet, failed dial on TCP and WebSocket; goroutine profile filtered to library frames and sockets still open at the peer are compared with the model run and with the constant bound. Translator tie: Gen/Chans.v (every channel send/receive of the client package with its syntactic form, regenerated from the source on every run by vaccess): C16_conn_goroutines_wake_on_close_in_source (every receive of a dispatcher/writer is a select listing the close signal or a ticker, except the one drain receive per dispatcher).",
        "level_note": "Trusted: kernel, extraction, harness (goroutine profile parsing, EOF probing at the peer). Per-client goroutines (keepalive, recovery loop) are checked by scenario (0 left after Close), not in the model.",
        "assumptions": ["a goroutine whose select has a closed channel case exits", "net.Conn.Close releases the socket"],
        "modelled": "tcpConn/wsConn reading, writing, OnPacket goroutines and Close; client connection slot across recovery",
    },
    "C17": {
        "trusted_extra": [
            "harness/cmd/vaccess (Go, go/types + source importer over /repo/go/client): regenerates coq/Gen/Access.v; its lock tracking (per block, branch meets, deferred closures without local locks), call-graph fixpoint for locks held at entry, interface-call resolution, set-up phase table and single-instance goroutine table are trusted",
            "the Go race detector (go build -race) for the dynamic search; reports are attributed to the library when both access stacks contain a library frame"],
        "race": True,
        "crash_is_violation": True,
        "design_ref": "DESIGN.md section 6 (C17)",
        "projection": "race detector reports with both access stacks inside the library",
        "mismatch_is_input": True,
        "timeout": {"quick": 1500, "thorough": 6000},
        "level_text": "Translator + Coq theorem + race detector. harness/cmd/vaccess (go/types over /repo/go/client, rerun whenever the sources change) regenerates Gen/Access.v: every access to a field of the client, connection and callback structs and to the single-writer / single-reader state of a gorilla connection, with read/write, atomic, set-up phase, and the locks held there - lexically and, by a fixpoint over the call graph, at every call site of the enclosing function; goroutines that exist once per object hold a pseudo-lock (table with justifications in the translator). Coq: Theorem C17_inventory_disciplined (by computation on the regenerated inventory): every two conflicting accesses outside the set-up phase share a lock, not both in read mode. Theorem disciplined_no_race / C17_no_data_race (lockset soundness, proved for all traces of any length and any number of threads under Mutex/RWMutex semantics): in every execution that holds the inventory's locks at its accesses, two conflicting accesses by different threads are separated by a release of a common lock by the first and a later acquisition by the second (happens-before), i.e. no data race. Search for a concrete schedule and tie to the real code: the scenario suites built with -race (mixed Do / AuthInfo / pushes / pings / keepalive / loss+recovery / close packet / Close on TCP and WebSocket; split frames against concurrent packing; write-queue overflow bursts; the other client suites again); every report whose two stacks are inside the library is a violation. PARTIAL: the codec packages (go, v1, v2, gzip: sync.Pool ownership, registries filled at init) are covered by the race detector runs only, not by the inventory.",
        "level_note": "Trusted: kernel; the translator (lock tracking is syntactic per block with branch meets, deferred closures get no local locks, interface calls resolve to every implementation in the package; single-instance goroutine table and set-up phase table are human-justified inputs); the Go race detector for the dynamic part. The theorem is about executions that follow the inventory; that the compiled code follows it is the translator's claim, cross-checked by the detector on the explored schedules.",
        "assumptions": ["sync.Mutex / RWMutex semantics as in Model/Races.v wf", "documented use: handlers and options set before Dial; Dial once per client", "gorilla/websocket: one concurrent reader and one concurrent writer"],
        "modelled": "every field access of client, tcpConn, wsConn, closeCallback, DialOptions; connDialers; gorilla writer/reader state; locks client.RWMutex, recvsMu, stateMu, closeCallback.mu; goroutine confinement",
    },
    "C15": {
        "design_ref": "DESIGN.md section 6 (C15)",
        "projection": "per tick: heartbeat (request id, heartbeat id) or recycle; echo of the peer's heartbeat",
        "mismatch_is_input": True,
        "timeout": {"quick": 1500, "thorough": 6000},
        "level_text": "Coq theorems on the keepalive loop (Model/Keepalive.v: check, ping, handlePong, handlePing echo, the reset by a successful recovery) with time supplied by the environment: every tick while connected, not recovering and not timed out sends one heartbeat whose request id is fresh and equals the heartbeat id of its body; the peer's heartbeat request is echoed (TCP); a peer that stopped answering is recycled at the first tick later than lastPong+timeout, i.e. within interval+timeout; and for timeout >= interval a peer that answers every heartbeat before the next tick is never recycled, from any state with no awaited heartbeat or a recent pong - including after any recovery. Timing hypotheses are explicit premises (healthy schedule). Tie: the real loop at 100 ms / 250 ms over TCP and WebSocket against always/never/stop-after-n/late/after-recovery peers; measured tick and pong times are replayed by the model tick by tick; latency bounds measured (direct oracle). C15_recovered_like_fresh: a recovery leaves the keepalive exactly where Dial leaves it (KRecovered refreshes the last-answer time; finding F27 repaired by 0c8c1ad, witness C15_old_rule_refuted). Scenarios added: a peer answering every heartbeat after 150 ms on the first connection and after a recovery; a keepalive verdict formed during a recovery and acted on after it (ka.after-check gate; finding F28 repaired by 54b0482). Full strength: C15_answering_peer_never_declared_dead - every heartbeat answered in order within lat, lat + interval <= timeout, ticks at most interval apart, any recoveries: never a recycle (C15_no_false_positive is the special case lat < interval).",
        "level_note": "Trusted: kernel, extraction, harness, ka.tick hook. Real time is measured, not proved: scheduling slack of 300 ms in the detection bound; a tick that coincides with a recovery in progress is outside the replayed scenarios.",
        "assumptions": ["time.Ticker ticks about every interval", "clock monotonic"],
        "modelled": "client.keepalive (check, ping), handlePong, handlePing, counter/heartbeat reset on recovery",
    },
    "C08": {
        "design_ref": "DESIGN.md section 6 (C08)",
        "projection": "dials, frames per connection with the presented session, back-offs, after-reconnect / give-up callbacks",
        "mismatch_is_input": True,
        "timeout": {"quick": 1500, "thorough": 6000},
        "level_text": "Coq theorems on the recovery protocol (Model/Recovery.v: reconnecting/reconnect/reconnectDial/auth/isAuthExpired/give-up) for every sequence of per-attempt outcomes (unbounded) and every configuration: the stored session is presented (RECONNECT) exactly while unexpired, an expired one leads to AUTH with a fresh token; a session rejected as unauthenticated falls back to AUTH on the same connection; failed attempts are retried after the back-off until one succeeds or the budget of consecutive failures is spent; then exactly one give-up report; the after-reconnect callback runs exactly once, last, only after a success; every success resets the counters; the current connection is closed before each dial and recovery frames travel only on the connection that attempt created. Lifecycle model (Model/Life.v, all interleavings): C08_every_loss_is_recovered - in every reachable state of an unclosed client either a connection is open or a recovery is running, including a loss of the connection a still-finishing recovery has just installed (recorded as pending, the loop starts over); a recovery at its loop head always has a next step. Tie: per-attempt outcome scripts against the real client (drop, refused dials, ok / unauthenticated / error status / dropped / silence answers, expired or not, getter or not, MaxReconnect 0..3) compared with the model; direct oracles for serves-again, old connections closed, callbacks; scenarios 'new connection dropped while the after-reconnect callback runs' and 'connection dropped before the client has registered its close callback' (dial.before-onclose gate; re-dial and first Dial) on TCP and WebSocket with the keepalive far away, replayed by the lifecycle model.",
        "level_note": "Trusted: kernel, extraction, harness. Attempt-level model: the interleaving of the recovery goroutine with user calls and the other goroutines is covered by C06/C14 scenarios, not by these theorems. Loss causes other than peer drop (keepalive timeout, close packet, undecodable frame) enter the same loop and are exercised in C15/C06 scenarios.",
        "assumptions": ["the clock decides isAuthExpired (expires - 10 s)", "token getter and dialer are environment"],
        "modelled": "client.reconnecting (retry loop), reconnect, reconnectDial, auth, isAuthExpired, Close on hit-max",
    },
    "C12": {
        "design_ref": "DESIGN.md section 6 (C12)",
        "projection": "enqueue verdicts; bytes / messages at the peer",
        "mismatch_is_input": True,
        "vm_max_len": 300,
        "timeout": {"quick": 1500, "thorough": 6000},
        "level_text": "Coq theorems on the write path (Model/WritePath.v: write(), the writer goroutine with its remainder buffer, the socket taking any number of bytes per write) for every interleaving of enqueues by any number of writers with writer steps: in every reachable state socket bytes ++ remainder ++ queued items = handshake ++ accepted frames in acceptance order (so the peer holds a prefix: never interleaved, torn, duplicated or lost; all of it once drained); the handshake stays first; an enqueue is a single step that always returns, accepted iff open and room, a full queue is an error that changes nothing; WebSocket: one binary message per accepted frame in order. Tie: real tcpConn/wsConn from the registered dialers against stalled, slow and normal peers, queue sizes 1..16, frames 1 B..1 MiB, gzip thresholds; sequential runs compared with the model, concurrent writers by direct oracle on the peer's stream. Plus: callers released together for the last free queue slot behind a writer stuck in a 12 MiB frame (every Write returns), and peer pings during 8 MiB WebSocket messages. Translator tie: Gen/Chans.v (every channel send/receive of the client package with its syntactic form, regenerated from the source on every run by vaccess): C12_enqueue_never_blocks_in_source - the only sends on a write queue are the two write functions and both are select-with-default, which is what makes the model's enqueue one total step.",
        "level_note": "Trusted: kernel, extraction, harness incl. the reference decoder at the peer. The frame bytes are Pack's (C02). Short socket writes are modelled although real sockets report an error with them.",
        "assumptions": ["Go channel = FIFO with non-blocking send", "net.Conn.Write writes the bytes it reports", "gorilla WriteMessage sends one message per call"],
        "modelled": "tcpConn.Write/write/writing, dialTCPConn handshake enqueue, wsConn.write/writing, the version query of dialWSConn",
    },
    "C13": {
        "design_ref": "DESIGN.md section 6 (C13)",
        "projection": "handler invocation sequence, logged drops, dispatched count",
        "mismatch_is_input": True,
        "level_text": "Coq theorems on the reader/dispatcher pair around the bounded receive queue (Model/Dispatch.v) for every interleaving of their steps, every queue size, every subscription table and every mix of frames: handler invocations = the taken frames in arrival order, each push once to every handler of its command in subscription order and to no other; at quiescence that is every accepted frame; accepted = received minus the logged drops, in order; a drop happens only when the queue is full; control commands never reach subscribers. Tie: scripted bursts over TCP and WebSocket with a blocking first handler so the queue overflows deterministically, queue sizes 1..16, compared with the model; delivery across drop+recovery checked by direct oracle. Plus: frames read before Dial has registered the packet callback (dial.before-onpacket gate) are still delivered; re-entrant handlers; text messages; two clients at once. Translator tie: Gen/Chans.v (every channel send/receive of the client package with its syntactic form, regenerated from the source on every run by vaccess): C13_reader_never_blocks_in_source (addPacket is select-with-default). The dispatcher's lifecycle (registered late, connection closed, drain, exit) is part of Model/Dispatch.v: C13_late_registration_unobservable, C13_closed_before_registration_delivers_all, C13_gone_reported_once.",
        "level_note": "Trusted: kernel, extraction, harness. Per connection; the order between the old and the new connection's dispatcher across a reconnect is checked by scenario only.",
        "assumptions": ["Go channel = FIFO queue with non-blocking send failing when full", "handlers are registered before Dial (documented)"],
        "modelled": "tcpConn/wsConn.OnPacket dispatcher, addPacket, client.onPacket/handleControl/handlePush/Subscribe",
    },
    "C05": {
        "design_ref": "DESIGN.md section 6 (C05)",
        "projection": "each call's result; no-receiver / duplicate / unsupported log counts",
        "mismatch_is_input": True,
        "timeout": {"quick": 1500, "thorough": 6000},
        "level_text": "Coq theorems on the waiter mechanism (Model/Waiters.v: Do/register/recv/handleResponse/onPacket routing/Packet.Err/reconnect sweep) for every action list, i.e. every interleaving of any number of calls with ARBITRARY dispatched packets (permuted, duplicated, late, unknown or stale ids, pushes, peer requests): a finished call holds only a packet with its own request id that was routed to waiters (or timeout / lost connection / write error); a finished call never changes; unsolicited and duplicate responses leave exactly one log line; status 0 is success, every other status the typed error with the body's code/message or the 500 fallback. Tie: scripted peer over TCP and WebSocket, v1/v2, k<=8 concurrent calls, scripted packet lists, all 256 statuses; the forced history is replayed by the model and compared per call. The returned packet is a response frame with status success carrying the call's id (C05_returned_packet_is_a_response); request or push frames with the AUTH / RECONNECT command are ignored. Translator tie: Gen/Chans.v (every channel send/receive of the client package with its syntactic form, regenerated from the source on every run by vaccess): C05_dispatcher_never_blocked_by_a_waiter_in_source.",
        "level_note": "Trusted: kernel, extraction, harness incl. scripted peers and the reference codec; proto.Unmarshal of control.Error is an oracle (per-case table). Mechanism model: the rest of the client is an adversarial environment (more behaviours than the real one). Note: AUTH/RECONNECT-command packets of any type are routed to waiters by handleControl (modelled as written; returns_own_id still holds).",
        "assumptions": ["request ids of one connection context are distinct (C19) and fewer than 2^32 calls", "proto.Unmarshal(control.Error) as observed per case"],
        "modelled": "client.Do, register, recv, handleResponse, onPacket/handleControl routing, Packet.Err, the waiter sweep of reconnect()",
    },
    "C07": {
        "design_ref": "DESIGN.md section 6 (C07)",
        "projection": "each call's result and the no-receiver log count",
        "mismatch_is_input": True,
        "level_text": "Coq theorems for every interleaving on a live connection: a request that has been handed to the transport has its waiter registered (C07_written_is_registered, invariant over all action lists without sweep), hence the matching response dispatched at any later point - also immediately after the write, before the caller waits - is stored (not logged as no-receiver) and is exactly what the caller returns when it takes it. The old order (write, then register) is kept as a witness example. Tie: the do.after-write hook parks 1..8 callers right after the write while the peer answers; every call must return its response; history replayed by the model.",
        "level_note": "Trusted: kernel, extraction, harness, the hook runtime. Real-time clause (response before the deadline but caller descheduled past it: Go's select may pick either ready branch) is inherent and outside the model.",
        "assumptions": ["Go select takes a ready channel when the deadline has not expired", "fewer than 2^32 calls per connection"],
        "modelled": "client.Do (register before write), recv, handleResponse",
    },
    "C19": {
        "design_ref": "DESIGN.md section 6 (C19)",
        "projection": "all",
        "mismatch_is_input": True,
        "level_text": "Coq theorems over every history (= every schedule, each id draw being one atomic step) of any mix of constructors and option lists over any number of contexts: the request ids of a context are in issue order the successive draws from its counter, from a fresh context exactly 1..n (n < 2^32), pairwise distinct; request constructors stamp the fresh id after the caller's options (not overridable); response/push constructors draw nothing and keep the caller's id. Tie: constructor/option histories compared with the model; G x M goroutines must produce exactly {1..GM} (direct oracle). Builds that fail after their id was drawn: C19_successful_ids_in_issue_order / _distinct; harness: failing builds in the histories (model op f) and between concurrent builds, a shared option slice with spare capacity (finding F26 repaired by d81a15f), 2^31+2 (thorough 2^32-1) successive ids of one context.",
        "level_note": "Trusted: kernel, extraction, harness. Assumes atomic.AddUint32 is atomic (sync/atomic contract): a concurrent execution is a linear history of draws.",
        "assumptions": ["atomic.AddUint32 is one indivisible read-modify-write", "uint32 wrap-around = mod 2^32"],
        "modelled": "go/context.go GetRequestIDGen, NewContext; go/packet.go NewPacket, NewRequest, MustNewRequest, NewResponse, MustNewResponse, NewPush, MustNewPush, WithVerify, WithRequestId, WithStatusCode",
    },
    "C03": {
        "design_ref": "DESIGN.md section 6 (C03)",
        "projection": "packet sequence and left-over byte counts after every chunk",
        "mismatch_is_input": True,
        "level_text": "Coq theorems over every decoder state reachable by any chunk history: (geometry) the result of a call is the same for every way the ring can split Peek(3); (segmentation) a call that reported need-more-data followed by more bytes behaves exactly like the call on all the bytes, and a call that produced a packet or an error produces the same with any later bytes behind it and leaves exactly those bytes; a completed frame consumes exactly its own bytes; the invariant these are stated under is preserved by every call and feed. The ring buffer under the decoders is abstracted to its content; that abstraction is itself a theorem about a concrete model of the third-party ring (Model/Ring.v, RingFast.v: array, size, r, w, isEmpty; Length, Peek, PeekAll, Retrieve, free, Write, makeSpace, NewWithData): C03_ring_history_refines - every history of Write/Length/Peek/Retrieve on a well-formed ring shows what the same history shows on a byte queue, in every geometry incl. growth - and C03_fast_path_leftover_complete - the read loop's 'first, _ := PeekAll()' on a NewWithData ring drops nothing; that model is tied to the library by the rg.ops cases (private state read by reflection, operation sequences compared item by item). The tie for the decoders runs the real Unpack on the real ring over frames x cuts (every single cut position, 1-byte chunks, random) x capacities x every start offset so each multi-byte field meets the wrap. Whole runs: C03_chunking_and_geometry_irrelevant - for every byte string, every cutting into socket reads and every geometry during every read, the read loop (Model/Chunks.v run_chunks; tied by the st.chunks cases) delivers the same packets in the same order and ends the same way (and in the same state) as when the bytes arrive in one piece; C03_run_total - no run panics or needs more than length+1 calls per read. With C01_roundtrip_streaming the delivered packets are exactly the encoded ones.",
        "level_note": "Trusted: kernel, extraction, harness; ring buffer library modelled by its content + adversarial Peek split; the connection-level clause (tcpConn.reading) is exercised over loopback TCP by the client harness (C13/C12 scenarios), not proved.",
        "assumptions": ["ringbuffer v0.0.11 behaves as a byte queue (Length/Peek/Retrieve/Read/Write on the content)", "compress/gzip oracle"],
        "modelled": "Header.Unpack (v1, v2), protocolV1/V2.Unpack, Context.SetHeader/GetHeader/EndUnpack, tcpConn.readPacket; ring buffer by content",
    },
    "C04": {
        "design_ref": "DESIGN.md section 6 (C04)",
        "projection": "verdict class (OK/ERR/PANIC), consumed counts, requested capacity",
        "mismatch_is_input": True,
        "timeout": {"quick": 1500, "thorough": 6000},
        "level_text": "Totality theorems for every decoding entry point over all byte strings / all reachable streaming states / all ring splits: one-shot frame decode, streaming decode (plus: a step that reports a packet consumed >= 1 byte; its own allocations are bounded by the bytes already buffered), metadata block, handshake, gzip wrapper (requested capacity <= 1032*len(in)+512 whatever the size trailer says). In the model every index/slice is a checked primitive (Panic when out of range) and every loop runs on fuel, so '<> Panic' is 'never reads outside the input' and '<> OutOfFuel' is termination. Tie: hostile inputs (every truncation, every length field 0/max/+-1, metadata/body length swaps, bit flips, gzip trailers under/overstating) through all entry points with recover() verdicts compared to the model, TotalAlloc per call measured, huge-claim gzip cases in a child process under ulimit -v.",
        "level_note": "Trusted: kernel, extraction, harness. Totality and allocation of compress/gzip, protobuf and encoding/json themselves are assumed (Packet.Err/Unmarshal are exercised on random bodies for panics only).",
        "assumptions": ["compress/gzip, proto.Unmarshal, json.Unmarshal return or fail on every input and allocate within the format's expansion bound", "Go int is 64-bit"],
        "modelled": "all decode entry points of go/v1, go/v2, go/metadata.go, go/protocol.go (Handshake.Unpack), go/gzip/gzip.go (Decompress sizing)",
    },
    "C01": {
        "design_ref": "DESIGN.md section 6 (C01)",
        "projection": "decode(encode p) through both entry points, and the error verdict",
        "mismatch_is_input": True,
        "timeout": {"quick": 1500, "thorough": 6000},
        "level_text": "One-shot round trip for every packet of the valid domain, every threshold and every pooled-header state is a Coq theorem (corollary of C02's two directions, C09's round trip and the stated contract of compress/gzip); unrepresentable packets provably yield an error. The streaming entry point: C01_roundtrip_streaming - for any list of valid packets encoded onto a connection, any cutting of the byte stream into socket reads and any ring geometry during each read, the read loop (Model/Chunks.v run_chunks, the function the st.chunks correspondence cases exercise) delivers in order exactly the packets the one-shot round trip describes, ends asking for more data, and leaves an empty buffer (from C01_stream_decodes_layout: one Unpack call on a layout frame followed by any bytes, and C03's chunking theorem). Tie: the composition decode(encode p) on the implementation vs the model and vs p itself, both entry points, thresholds around the body length, 2^24 boundaries.",
        "level_note": "Trusted: kernel, translator, extraction, harness; compress/gzip is an oracle (gz_contract: reading what was compressed yields the input and EOF), instantiated per case with the standard library's own output. Packets whose Gzip flag is preset by the caller are outside wf_packet (modelled, compared, not in the theorem).",
        "assumptions": ["compress/gzip round trip (gz_contract)", "encoding/binary.BigEndian = big-endian by div/mod", "Go int is 64-bit"],
        "modelled": "go/v1/v1.go, go/v2/v2.go Pack/UnpackBytes/Unpack; go/v1/header.go, go/v2/v2_header.go; go/gzip/gzip.go Compress/Decompress (hand-written Gallina mirror)",
    },
    "C02": {
        "design_ref": "DESIGN.md section 6 (C02)",
        "projection": "encoder bytes; decoded fields and accept/reject verdict",
        "mismatch_is_input": True,
        "level_text": "Both directions are Coq theorems against Model/Spec.v, an arithmetic transcription of the published layout that shares nothing with the bit-level model of the Go code: pack = spec_frame for every representable packet/threshold/pool state, and unpack_bytes (spec_frame f) = the layout's field values for every well-formed field tuple incl. reserve bits and extremes; unknown type nibbles rejected. Tie: byte-for-byte and field-for-field differential against the model and, independently, against a layout-derived reference codec in the harness; all 256 values of byte 0 exhaustively.",
        "level_note": "Trusted: kernel, translator (header lengths, masks, limits come from the Go compiler), extraction, harness incl. its reference codec. Trailing bytes after a frame in one-shot decode land in the signature (stated, visible in the model).",
        "assumptions": ["encoding/binary.BigEndian = big-endian by div/mod", "Go uint8/uint16/uint32 truncation = N mod 2^k"],
        "modelled": "go/v1/header.go, go/v2/v2_header.go (Pack, UnpackBytes, Metadata, headerFromMetadata, pool Get), go/v1/v1.go, go/v2/v2.go (Pack, UnpackBytes)",
    },
    "C10": {
        "design_ref": "DESIGN.md section 6 (C10)",
        "projection": "gzip verdict and content; frame gzip flag and body",
        "mismatch_is_input": True,
        "level_text": "Relative to the oracle for compress/gzip: Decompress succeeds exactly for a complete valid stream and then returns its full content, everything else is an error (theorems); Compress/Decompress identity under the round-trip contract; frame level: compressed iff threshold non-zero and body length >= threshold, flag set accordingly, receiver sees the original body (theorems). Tie: every truncation and every single-byte corruption (3 patterns) of small valid streams, ISIZE under/overstated, multi-member, trailing garbage, sizes to 1 MiB, compared with the model instantiated by the stdlib reader's verdict; concurrency on the pooled compressors is a direct stress oracle (not a theorem).",
        "level_note": "Trusted: kernel, extraction, harness; DEFLATE itself is not modelled (no verified inflate installed). The pools' concurrent ownership is checked by stress only: partial for the 'also under concurrent use' clause.",
        "assumptions": ["compress/gzip reader verdicts as observed per case; Reset restores a fresh state", "sync.Pool hands an object to one owner"],
        "modelled": "go/gzip/gzip.go Compress, Decompress, DecompressedSize; the gzip branch of Pack/Unpack/UnpackBytes",
    },
    "C11": {
        "design_ref": "DESIGN.md section 6 (C11)",
        "projection": "per-operation results of multi-context histories",
        "mismatch_is_input": True,
        "level_text": "Isolation over every history is a Coq theorem: in any interleaving of Pack / UnpackBytes / feed / Unpack / Unpack-until-not-done over any number of contexts and any pool contents, each context observes exactly what it observes running alone (C11_isolation), one-shot decode leaves the context untouched, the pooled header is completely reset. Tie: random histories of 5-40 operations over 1-3 contexts of both versions with partial, failing and successful decodes on real (wrapped) ring buffers, per-operation results compared with the model; N goroutines with independent contexts against the sequential results (direct oracle). Plus a repeat-decode oracle: the same frame decoded on empty pools and then on recycled objects gives the same result (gzip bodies with several members, trailing bytes, truncation).",
        "level_note": "Trusted: kernel, extraction, harness. sync.Pool is modelled as handing out an object with arbitrary stale contents; goroutine interleavings inside the pools are stress-tested, not proved.",
        "assumptions": ["sync.Pool hands an object to one owner at a time", "a context is used by one goroutine (as the client does)"],
        "modelled": "headerPool.Get/Put sites, headerFromContext, the defers of Unpack/UnpackBytes/Pack, Context.SetHeader/GetHeader/EndUnpack",
    },
    "C09": {
        "design_ref": "DESIGN.md section 6 (C09)",
        "projection": "marshalled bytes / decoded maps / Set,Get results",
        "mismatch_is_input": True,
        "level_text": "Canonical prefix (all lengths), decoder accepts exactly canonical untruncated blocks, totality, budget, whole-pairs/longest-fitting-prefix, round-trip with lower-cased keys, Set guards and determinism (independence from map iteration order) are Coq theorems over all byte strings / maps / budgets; the tie is a differential run incl. two exhaustive sub-sweeps (every string length 0..32768, every 2-byte prefix) plus an independent reference codec as direct oracle.",
        "level_note": "Trusted: kernel, translator (prefix constants come from the Go compiler), extraction, harness. Go map = strictly sorted association list; strings.ToLower modelled bytewise for pure-ASCII keys only (non-ASCII keys: budget/totality checked on the implementation, not compared with the model).",
        "assumptions": [
            "Go map[string]string is modelled as a strictly key-sorted association list; sort.Strings order = bytewise lexicographic order",
            "strings.ToLower = bytewise A-Z -> a-z on pure-ASCII keys (keys with bytes >= 0x80 are outside the compared domain)",
            "Go int is unbounded Z (64-bit platform)",
        ],
        "modelled": "go/metadata.go unmarshalStringLength, getString closure, UnmarshalValues, marshalString, MarshalValues, Set, Get",
    },
    "C18": {
        "design_ref": "DESIGN.md section 6 (C18)",
        "projection": "all",
        "mismatch_is_input": True,
        "assumptions": [
            "Go uint8 arithmetic is N modulo 256; | << >> & are N.lor/N.shiftl/N.shiftr/N.land",
            "the registry is read after the init functions of v1 and v2 ran (as in any program importing the client)",
        ],
        "level_text": "All clauses are Coq theorems over the whole finite domain (both directions of the bijection are complete 2^16 sweeps inside the kernel plus the all-lengths gate and the version gate); the model is tied to the code by an exhaustive differential run of the same 2^16+2^16 inputs, all lengths 0..6/255/256/65536 and all 256 versions, so for this property the tie is complete rather than sampled. For any registry (aliases through the exported Register): C18_any_registry_adopts/_rejects, C18_alias_adopts_its_number, C18_builtin_registry_is_the_swept_model; the harness registers aliases last and checks the adopted number.",
        "level_note": "Trusted: Coq kernel + vm_compute, the constant translator, extraction/ocamlopt, the Go harness printers. Assumes Go uint8 semantics = N mod 256.",
        "modelled": "go/protocol.go Handshake.Pack/Unpack, GetProtocol; go/context.go Context.Handshake (hand-written Gallina mirror; tie = exhaustive differential run)",
    },
}


def coqchk(prop):
    rc, out, dt = oap.sh("coqchk -silent -o -Q . OAP OAP.Properties.%s" % prop, cwd=oap.COQ, timeout=3000)
    axioms = []
    grab = False
    for l in out.splitlines():
        if l.strip().startswith("* Axioms"):
            grab = True
            continue
        if grab:
            if l.strip().startswith("*"):
                grab = False
            elif l.strip():
                axioms.append(l.strip())
    return {"ok": rc == 0, "s": round(dt, 1), "axioms": axioms, "out": out[-3000:]}


def evidence(prop, cfg, tier, seed, wall, proof, stats, corr, viols, known_hits, problems, build):
    tb = [KERNEL,
          "Print Assumptions for every theorem of Properties/%s.v on this run: %s" % (
              prop, ("axioms: " + ", ".join(proof["assumptions"])) if proof["assumptions"]
              else "%d x 'Closed under the global context' (no axioms)" % proof.get("closed_count", 0)),
          TRANSLATOR, EXTRACTION, HARNESS,
          "modelled, not verified: " + cfg.get("modelled", "")] + list(cfg.get("trusted_extra", []))
    if proof.get("coqchk"):
        tb.append("coqchk -silent -o: %s; axioms reported: %s" % (
            "ok" if proof["coqchk"]["ok"] else "FAILED", ", ".join(proof["coqchk"]["axioms"]) or "none"))
    cov = {
        "obligations": proof["obligations"],
        "discharged": proof["discharged"],
        "checker_cmd": "make -f Makefile.coq -j16 (coqc 8.16.1, full .vo) && coqc -Q . OAP Properties/%s.v" % prop
                       + (" && coqchk -silent -o OAP.Properties.%s" % prop if proof.get("coqchk") else ""),
        "trusted_base": tb,
        "theorems": proof["theorems"],
        "evaluations": (stats or {}).get("evaluations", 0),
        "distinct_nontrivial": (stats or {}).get("distinct_nontrivial", 0),
        "rule": (stats or {}).get("rule", ""),
        "samples": (stats or {}).get("samples", []) or ["(no cases: harness did not run)"],
        "exhaustive": bool((stats or {}).get("exhaustive", False)),
        "input_distribution": (stats or {}).get("distribution", {}),
        "correspondence": {"cases_compared_model_vs_impl": corr.get("evaluations", 0),
                           "mismatches": len(corr.get("mismatches", [])),
                           "vm_compute_sample": corr.get("vm_sample")},
        "direct_oracle_violations": len(viols),
        "known_findings_seen": sorted(known_hits.keys()),
        "no_longer_checks": problems,
        "build_seconds": {k: v.get("s") for k, v in build["stages"].items()},
    }
    if (stats or {}).get("notes"):
        cov["notes"] = stats["notes"]
    return {
        "property_id": prop,
        "tier": tier,
        "seed": seed,
        "level": "proof",
        "coverage": cov,
        "assumptions": cfg.get("assumptions", []),
        "wall_s": round(wall, 1),
        "violations": len(viols) + (1 if problems and not viols else 0),
    }
