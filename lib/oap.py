#!/usr/bin/env python3
"""Driver library for /verif checks (see DESIGN.md sections 4 and 5)."""
import fcntl
import glob
import hashlib
import json
import os
import re
import shutil
import subprocess
import sys
import time

ROOT = os.path.dirname(os.path.dirname(os.path.abspath(__file__)))
COQ = os.path.join(ROOT, "coq")
BUILD = os.path.join(ROOT, "build")
HARNESS = os.path.join(ROOT, "harness")
OCAML = os.path.join(ROOT, "ocaml")
REPO = "/repo"

GOENV = dict(os.environ, GOFLAGS="-mod=mod", GOPROXY="off", GOSUMDB="off", GOTOOLCHAIN="local",
             CGO_ENABLED=os.environ.get("CGO_ENABLED", "1"))

FORBIDDEN = re.compile(
    r"\b(Admitted|admit|Axiom|Axioms|Parameter|Parameters|Conjecture|Conjectures|Admit\s+Obligations|"
    r"Unset\s+Guard\s+Checking|Unset\s+Positivity\s+Checking|Unset\s+Universe\s+Checking|bypass_check|"
    r"native_compute|type-in-type|impredicative-set)\b")


def log(*a):
    print("[check]", *a, file=sys.stderr, flush=True)


def sh(cmd, cwd=None, env=None, timeout=1800, check=False, stdin=None):
    t0 = time.time()
    try:
        p = subprocess.run(cmd, cwd=cwd, env=env, timeout=timeout, stdout=subprocess.PIPE,
                           stderr=subprocess.STDOUT, text=True, stdin=stdin, shell=isinstance(cmd, str))
        out, rc = p.stdout, p.returncode
    except subprocess.TimeoutExpired as e:
        out, rc = (e.stdout or b"").decode("utf8", "replace") if isinstance(e.stdout, bytes) else (e.stdout or ""), 124
        out += "\n[timeout after %ds]" % timeout
    if check and rc != 0:
        raise RuntimeError("command failed (%s): %s\n%s" % (rc, cmd, out[-4000:]))
    return rc, out, time.time() - t0


class Lock:
    def __init__(self, name="build"):
        os.makedirs(BUILD, exist_ok=True)
        self.path = os.path.join(BUILD, ".%s.lock" % name)

    def __enter__(self):
        self.f = open(self.path, "w")
        fcntl.flock(self.f, fcntl.LOCK_EX)
        return self

    def __exit__(self, *a):
        fcntl.flock(self.f, fcntl.LOCK_UN)
        self.f.close()


def coq_files():
    with open(os.path.join(COQ, "_CoqProject")) as f:
        return [l.strip() for l in f if l.strip().endswith(".v")]


def build_all(need_harness=True, race=False):
    """Rebuild everything that depends on /repo's working tree. Returns a dict
    with per-stage status; never raises for a stage that /repo can break."""
    st = {"stages": {}, "ok": True}
    os.makedirs(BUILD, exist_ok=True)
    # harness go.sum follows the repo's
    try:
        shutil.copyfile(os.path.join(REPO, "go", "go.sum"), os.path.join(HARNESS, "go.sum"))
    except OSError:
        pass
    # 1. translator
    rc, out, dt = sh(["go", "build", "-tags", "verif", "-o", os.path.join(BUILD, "vextract"), "./cmd/vextract"],
                     cwd=HARNESS, env=GOENV, timeout=600)
    st["stages"]["vextract_build"] = {"rc": rc, "s": round(dt, 1), "out": out[-3000:]}
    if rc == 0:
        rc, out, dt = sh([os.path.join(BUILD, "vextract"), os.path.join(COQ, "Gen", "Consts.v")], timeout=120)
        st["stages"]["vextract_run"] = {"rc": rc, "s": round(dt, 1), "out": out[-3000:]}
    if rc != 0:
        st["ok"] = False
    # 1b. access / lock inventory of the client package (C17): regenerated whenever the client sources change
    acc_v = os.path.join(COQ, "Gen", "Access.v")
    acc_json = os.path.join(BUILD, "access.json")
    h = hashlib.sha256()
    for fn in sorted(glob.glob(os.path.join(REPO, "go", "client", "*.go")) + glob.glob(os.path.join(HARNESS, "cmd", "vaccess", "*.go"))):
        h.update(fn.encode())
        h.update(open(fn, "rb").read())
    stamp = os.path.join(BUILD, "access.stamp")
    if not (os.path.exists(acc_v) and os.path.exists(acc_json) and os.path.exists(os.path.join(COQ, "Gen", "Chans.v"))
            and os.path.exists(stamp) and open(stamp).read() == h.hexdigest()):
        rc2, out2, dt2 = sh(["go", "build", "-o", os.path.join(BUILD, "vaccess"), "./cmd/vaccess"], cwd=HARNESS, env=GOENV, timeout=600)
        if rc2 == 0:
            rc2, out2, dt2 = sh([os.path.join(BUILD, "vaccess"), os.path.join(REPO, "go", "client"), acc_v + ".new", acc_json,
                                 os.path.join(COQ, "Gen", "Chans.v")], env=GOENV, timeout=300)
        if rc2 == 0:
            if not os.path.exists(acc_v) or open(acc_v).read() != open(acc_v + ".new").read():
                os.replace(acc_v + ".new", acc_v)
            else:
                os.remove(acc_v + ".new")
            open(stamp, "w").write(h.hexdigest())
        else:
            # no inventory of the current source: C17's theorem must not be checked against a stale one
            open(acc_v, "w").write("(* vaccess failed on the current source *)\nDefinition inventory_unavailable := tt.\n")
            open(os.path.join(COQ, "Gen", "Chans.v"), "w").write("(* vaccess failed on the current source *)\nDefinition chan_ops_unavailable := tt.\n")
            if os.path.exists(stamp):
                os.remove(stamp)
        st["stages"]["vaccess"] = {"rc": rc2, "s": round(dt2, 1), "out": out2[-3000:]}
    # 2. Coq
    if not os.path.exists(os.path.join(COQ, "Makefile.coq")) or \
            os.path.getmtime(os.path.join(COQ, "Makefile.coq")) < os.path.getmtime(os.path.join(COQ, "_CoqProject")):
        sh(["coq_makefile", "-f", "_CoqProject", "-o", "Makefile.coq"], cwd=COQ, check=True)
    rc, out, dt = sh(["make", "-f", "Makefile.coq", "-j16", "-k"], cwd=COQ, timeout=3000)
    st["stages"]["coq_make"] = {"rc": rc, "s": round(dt, 1), "out": out[-6000:]}
    st["coq_ok"] = rc == 0
    # 3. extraction + OCaml runner (only needs Model/Run.vo)
    run_vo = os.path.join(COQ, "Model", "Run.vo")
    gen = os.path.join(OCAML, "gen")
    os.makedirs(gen, exist_ok=True)
    ml = os.path.join(gen, "model.ml")
    vm = os.path.join(BUILD, "vmodel")
    if os.path.exists(run_vo):
        deps = [run_vo, os.path.join(COQ, "Extract", "Extract.v"), os.path.join(OCAML, "vmodel.ml")]
        newest = max(os.path.getmtime(d) for d in deps)
        if not os.path.exists(vm) or os.path.getmtime(vm) < newest:
            rc, out, dt = sh(["coqc", "-Q", COQ, "OAP", os.path.join(COQ, "Extract", "Extract.v")], cwd=gen, timeout=900)
            st["stages"]["extract"] = {"rc": rc, "s": round(dt, 1), "out": out[-3000:]}
            if rc == 0:
                rc, out, dt = sh(["ocamlfind", "ocamlopt", "-O3", "-w", "-a", "-I", gen, os.path.join(gen, "model.mli"),
                                  os.path.join(gen, "model.ml"), os.path.join(OCAML, "vmodel.ml"), "-o", vm],
                                 cwd=gen, timeout=900)
                st["stages"]["ocaml"] = {"rc": rc, "s": round(dt, 1), "out": out[-3000:]}
            if rc != 0:
                st["ok"] = False
    else:
        st["ok"] = False
        st["stages"]["extract"] = {"rc": 1, "out": "Model/Run.vo missing"}
    # 4. harness
    if need_harness:
        rc, out, dt = sh(["go", "build", "-tags", "verif", "-o", os.path.join(BUILD, "vharness"), "./cmd/vharness"],
                         cwd=HARNESS, env=GOENV, timeout=900)
        st["stages"]["vharness_build"] = {"rc": rc, "s": round(dt, 1), "out": out[-3000:]}
        if rc != 0:
            st["ok"] = False
        if race:
            rc, out, dt = sh(["go", "build", "-race", "-tags", "verif", "-o", os.path.join(BUILD, "vharness-race"), "./cmd/vharness"],
                             cwd=HARNESS, env=GOENV, timeout=900)
            st["stages"]["vharness_race_build"] = {"rc": rc, "s": round(dt, 1), "out": out[-3000:]}
            if rc != 0:
                st["ok"] = False
    return st


def coq_closure(prop_file):
    """transitive .v dependencies of a Coq file inside the project (via coqdep)."""
    rc, out, _ = sh(["coqdep", "-Q", ".", "OAP"] + coq_files(), cwd=COQ)
    deps = {}
    for line in out.splitlines():
        if ":" not in line:
            continue
        lhs, rhs = line.split(":", 1)
        tgt = [t for t in lhs.split() if t.endswith(".vo")]
        if not tgt:
            continue
        src = tgt[0][:-1]
        deps[src] = [d[:-1] for d in rhs.split() if d.endswith(".vo") and not d.startswith("/")]
    seen, todo = set(), [prop_file]
    while todo:
        f = todo.pop()
        if f in seen:
            continue
        seen.add(f)
        todo.extend(deps.get(f, []))
    return sorted(seen)


STMT = re.compile(r"^\s*(?:Local\s+|Global\s+|#\[[^\]]*\]\s*)*(Lemma|Theorem|Example|Corollary|Fact|Remark|Proposition)\s+([A-Za-z0-9_']+)", re.M)


def proof_status(prop):
    """(re)compile Properties/<prop>.v, collect obligations and Print Assumptions."""
    pf = "Properties/%s.v" % prop
    res = {"file": pf, "ok": False, "obligations": 0, "discharged": 0, "assumptions": [], "theorems": [],
           "broken": [], "forbidden": []}
    if not os.path.exists(os.path.join(COQ, pf)):
        res["broken"].append("missing " + pf)
        return res
    closure = coq_closure(pf)
    n = 0
    for f in closure:
        src = open(os.path.join(COQ, f)).read()
        nocom = re.sub(r"\(\*.*?\*\)", "", src, flags=re.S)
        n += len(STMT.findall(nocom))
        for m in FORBIDDEN.finditer(nocom):
            res["forbidden"].append("%s: %s" % (f, m.group(0)))
        if not os.path.exists(os.path.join(COQ, f + "o")) or \
                os.path.getmtime(os.path.join(COQ, f + "o")) < os.path.getmtime(os.path.join(COQ, f)):
            res["broken"].append(f)
    res["obligations"] = n
    src = re.sub(r"\(\*.*?\*\)", "", open(os.path.join(COQ, pf)).read(), flags=re.S)
    res["theorems"] = [m[1] for m in STMT.findall(src)]
    if res["broken"]:
        # find the first failing statement for the replay note
        rc, out, _ = sh(["make", "-f", "Makefile.coq", pf + "o"], cwd=COQ, timeout=1800)
        res["error"] = out[-3000:]
        return res
    # re-check the property file itself and capture Print Assumptions
    rc, out, dt = sh(["coqc", "-Q", ".", "OAP", pf], cwd=COQ, timeout=1800)
    res["recheck_s"] = round(dt, 1)
    if rc != 0:
        res["broken"].append(pf)
        res["error"] = out[-3000:]
        return res
    ax = []
    closed = out.count("Closed under the global context")
    for blk in re.split(r"\n(?=Axioms:)", out):
        if blk.startswith("Axioms:"):
            for l in blk.splitlines()[1:]:
                m = re.match(r"^([A-Za-z0-9_.']+)\s*:", l)
                if m:
                    ax.append(m.group(1))
    res["assumptions"] = sorted(set(ax))
    res["closed_count"] = closed
    res["ok"] = not res["forbidden"]
    res["discharged"] = n if res["ok"] else 0
    return res


def run_harness(prop, tier, seed, extra=None, timeout=3000, race=False):
    d = os.path.join(BUILD, "run", prop)
    os.makedirs(d, exist_ok=True)
    cases = os.path.join(d, "cases.txt")
    stats = os.path.join(d, "stats.json")
    for f in (cases, stats):
        if os.path.exists(f):
            os.remove(f)
    cmd = [os.path.join(BUILD, "vharness-race" if race else "vharness"), "-tier", tier, "-seed", str(seed), "-out", cases, "-stats", stats]
    env = GOENV
    if race:
        for f in glob.glob(os.path.join(d, "race.*")):
            os.remove(f)
        env = dict(GOENV, GORACE="halt_on_error=0 history_size=5 log_path=" + os.path.join(d, "race"))
    if extra:
        cmd += extra
    cmd.append(prop)
    rc, out, dt = sh(cmd, cwd=d, env=env, timeout=timeout)
    st = None
    if os.path.exists(stats):
        try:
            st = json.load(open(stats))
        except Exception:
            st = None
    keep = out[-6000:]
    for mark in ("panic:", "fatal error:"):      # keep the head of a crash report, not the tail of its goroutine dump
        i = out.find(mark)
        if i >= 0 and rc != 0:
            keep = out[max(0, i - 500):i + 5500]
            break
    res = {"rc": rc, "out": keep, "s": round(dt, 1), "cases": cases, "stats": st}
    if race:
        res["races"] = parse_races(glob.glob(os.path.join(d, "race.*")))
        if rc == 66:          # the race runtime's exit code when it reported something
            res["rc"] = 0
    return res


LIB = "github.com/longportapp/openapi-protocol/go"


def parse_races(files):
    """distinct race reports: the two access stacks, reduced to (operation, frames...). A report counts against the
    library when both accesses are reached through library code (the innermost library frame of each stack is kept)."""
    seen, out = {}, []
    for f in files:
        for blk in open(f, errors="replace").read().split("==================\n"):
            if "DATA RACE" not in blk:
                continue
            parts = [p for p in blk.split("\n\n") if p.strip()]
            acc = []
            for p in parts[:2]:
                lines = [l for l in p.splitlines() if l.strip() and "WARNING: DATA RACE" not in l]
                if not lines:
                    continue
                op = lines[0].split(" at ")[0].strip()
                frames = [l.strip() for l in lines[1:] if l.startswith("  ") and not l.startswith("      ")]
                locs = [l.strip().split(" ")[0] for l in lines[1:] if l.startswith("      ")]
                lib = [(fr, lc) for fr, lc in zip(frames, locs) if LIB in fr and "/verif/" not in lc]
                acc.append({"op": op, "top": frames[0] if frames else "?", "top_at": locs[0] if locs else "?",
                            "library_frame": lib[0][0] if lib else None, "library_at": lib[0][1] if lib else None})
            if len(acc) < 2:
                continue
            in_lib = all(a["library_frame"] for a in acc)
            sig = "|".join(sorted("%s@%s" % (a["library_frame"] or a["top"], (a["library_at"] or a["top_at"]).rsplit("/", 1)[-1]) for a in acc))
            if sig in seen:
                seen[sig]["count"] += 1
                continue
            r = {"sig": sig, "count": 1, "in_library": in_lib, "accesses": acc, "report": blk[:6000]}
            seen[sig] = r
            out.append(r)
    return out


def run_model(cases, timeout=3000):
    """model verdict per case line through the extracted runner."""
    with open(cases) as f:
        # deep non-tail recursion over long byte lists: a large minor heap keeps the stack scans rare
        rc, out, dt = sh("ulimit -s unlimited 2>/dev/null; OCAMLRUNPARAM=s=%s exec %s check" % (
            os.environ.get("VERIF_OCAML_MINOR", "32M"), os.path.join(BUILD, "vmodel")), stdin=f, timeout=timeout)
    mism, done = [], None
    for l in out.splitlines():
        if l.startswith("MISMATCH "):
            _, idx, rest = l.split(" ", 2)
            mism.append((int(idx), rest))
        elif l.startswith("DONE "):
            done = tuple(int(x) for x in l.split()[1:3])
    return {"rc": rc, "mismatches": mism, "done": done, "s": round(dt, 1), "out": out[-2000:] if done is None else ""}


def read_lines(cases, idxs):
    want = set(idxs)
    got = {}
    n = 0
    with open(cases) as f:
        for line in f:
            if line.startswith("#") or not line.strip():
                continue
            if n in want:
                got[n] = line.rstrip("\n")
            n += 1
    return got


def coq_string(s):
    return '"' + s.replace('"', '""') + '"'


def vm_sample(prop, cases, max_cases=200, max_len=6000, timeout=900):
    """Evaluate a sample of the same cases inside Coq with vm_compute (guards the extraction)."""
    lines = []
    with open(cases) as f:
        for line in f:
            line = line.rstrip("\n")
            if not line or line.startswith("#") or len(line) > max_len:
                continue
            if all(32 <= ord(c) < 127 for c in line):
                lines.append(line)
    if len(lines) > max_cases:
        step = len(lines) / float(max_cases)
        lines = [lines[int(i * step)] for i in range(max_cases)]
    d = os.path.join(BUILD, "run", prop)
    vf = os.path.join(d, "Cases_%s.v" % prop)
    with open(vf, "w") as f:
        f.write("From Coq Require Import List String.\nFrom OAP Require Import Model.Run.\nImport ListNotations.\nOpen Scope string_scope.\n")
        f.write("Definition cases : list string := [\n")
        f.write(";\n".join(coq_string(l) for l in lines))
        f.write("\n].\nDefinition M := Eval vm_compute in mismatches cases.\nPrint M.\n")
    rc, out, dt = sh("ulimit -s unlimited 2>/dev/null; exec coqc -Q %s OAP %s" % (COQ, vf), cwd=d, timeout=timeout)
    ok = rc == 0 and re.search(r"M\s*=\s*\[\s*\]", out.replace("\n", " ")) is not None
    return {"ok": ok, "n": len(lines), "s": round(dt, 1), "out": "" if ok else out[-3000:]}


def load_known():
    p = os.path.join(ROOT, "KNOWN_FINDINGS.json")
    if not os.path.exists(p):
        return []
    return json.load(open(p))


def write_json(path, obj):
    os.makedirs(os.path.dirname(path), exist_ok=True)
    tmp = path + ".tmp"
    with open(tmp, "w") as f:
        json.dump(obj, f, indent=1, sort_keys=False)
        f.write("\n")
    os.replace(tmp, path)


def sha(s):
    return hashlib.sha1(s.encode()).hexdigest()[:10]



def unprotected_pairs():
    """for the replay only (the decision is Coq's): the conflicting site pairs of the current inventory that share no
    lock - same definition as Model/Races.v pair_ok, evaluated on build/access.json."""
    try:
        sites = json.load(open(os.path.join(BUILD, "access.json")))["sites"]
    except Exception:
        return []
    def conflicting(a, b):
        return a["loc"] == b["loc"] and (a["write"] or b["write"]) and not (a["atomic"] and b["atomic"]) \
            and not a["init"] and not b["init"]
    def protects(a, b):
        return any(l in b["locks"] and not (m == 1 and b["locks"][l] == 1) for l, m in a["locks"].items())
    out = []
    for a in sites:
        for b in sites:
            if a["id"] <= b["id"] and conflicting(a, b) and not protects(a, b):
                out.append("%s: %s %s [%s] vs %s %s [%s]" % (
                    a["loc"], "write" if a["write"] else "read", a["pos"], ",".join(sorted(a["locks"])) or "no lock",
                    "write" if b["write"] else "read", b["pos"], ",".join(sorted(b["locks"])) or "no lock"))
    return out
